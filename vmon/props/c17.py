"""C17 - command-line conversions invert each other and ignore worker count.

Every case builds a small corpus in a scratch directory, drives the REAL console entry points of
`pydrobert.torch.command_line` over it and judges what they printed and wrote with harness-side
oracles (own trn/ctm/TextGrid writers and parsers, run-length recounts, Fraction arithmetic, the
C02 edit-count oracle).  Two kinds of cases:

* in-process cases (`function(argv + ["--num-workers", "0"])`): compositions
  transcript -> token dir -> transcript (trn, ctm, TextGrid), ali -> tokens -> ali, the error-rate
  command under batch sizes / replace / ignore / costs, the subset command against a harness-side
  selection, the statistics commands against recounts;
* multi-worker cases (`mw:<command>`): the same scenario is run once in-process (and judged) and
  then again with the target command executed in a fresh interpreter with `--num-workers` 1 and 3
  and `--mp-chunk-size` 1000 / 1, the worker shim (shim/vshim_c17.py) delaying every work item by a
  seed-derived amount and logging (pid, item, t_start, t_end); everything printed and written must be
  identical to the in-process run, every item must have been processed exactly once.
"""
import os
import shutil
import sys
import tempfile

from . import _c17_fam as FAM
from . import _c17_gen as G
from . import _c17_run as R

ID = "C17"
LEVEL = "exploration"
RULE = (
    "class-directed random corpora (<= 8 utterances, <= 10 tokens, <= 14 frames) for eight command families "
    "(trn, ctm, TextGrid, ali round trips; error rates; subset; mvn statistics; length moments), each with a "
    "rotating sub-class (unk symbol, empty transcripts, alternates, channel maps, frame shifts, point/interval "
    "tiers, fill symbol, multi-tier long format, replace/ignore lists, NIST/tie costs, per-utt, every selection "
    "flag, link styles, id2gid, Bessel, exclude ids, ...) and a rotating file prefix/suffix class (default, "
    "prefix only, suffix only, both) with distractor files that must not be selected; plus multi-worker twins "
    "of every command that takes --num-workers (0 vs 1 vs 3 workers, chunk sizes 1000/1, seeded per-item "
    "delays in the children).  A case is distinct by the hash of its concrete corpus+flags and non-trivial if "
    "the corpus holds at least one non-empty utterance (error rates: at least one edit; subset: a non-empty "
    "selection; moments: at least one counted segment)"
)
ASSUMPTIONS = [
    "in-process calls of the entry-point functions behave like the installed console scripts (same function objects)",
    "times in generated ctm/TextGrid files are decimals with <= 4 digits; TextGrid times < 10 s and default print "
    "precision (D7/D8 are defects of property C11 and are avoided here)",
    "one frame tolerance = frame shift (+ 0.5e-3 s print precision for TextGrid); which stored row matches which "
    "written token is decided by a bipartite matching when start times tie",
    "error-rate figure with unequal costs: any edit count between the fewest and the most edits of a minimum-cost "
    "alignment is accepted (C02 oracle, vmon.oracles.lev.table_counts)",
    "figures that divide by a zero reference length are out of domain",
    "mvn statistics: relative/absolute tolerance 1e-4 against float64 pooled moments; non-constant coefficients "
    "(D13 is a C18 defect)",
    "spawn pools are always started from a fresh `python -c` interpreter; children get the shim through PYTHONPATH",
    "chunk-torch-spect-data-dir is only checked for worker independence (its content is property C10)",
]

INPROC = ["trn", "ctm", "tg", "ali", "er", "subset", "mvn", "mom"]
GEN = {"trn": G.gen_trn, "ctm": G.gen_ctm, "tg": G.gen_tg, "ali": G.gen_ali, "er": G.gen_er,
       "subset": G.gen_subset, "mvn": G.gen_mvn, "mom": G.gen_mom, "chunk": G.gen_chunk}


def _n_items(case):
    for k in ("expected", "files", "feats", "alis", "data", "refs"):
        if k in case and isinstance(case[k], dict):
            return len(case[k])
    return 0


def _n_selected(case):
    sel, count = FAM.subset_expected(case)
    return len(sel) if sel is not None else count


# label -> (command, family, constraint on the generated case, generator kwargs)
MW = [
    ("trn_to", "trn_to_torch_token_data_dir", "trn", None, {}),
    ("to_trn", "torch_token_data_dir_to_trn", "trn", None, {}),
    ("ctm_to", "ctm_to_torch_token_data_dir", "ctm", None, {}),
    ("tg_to", "textgrids_to_torch_token_data_dir", "tg", None, {}),
    ("to_tg", "torch_token_data_dir_to_textgrids", "tg", lambda c: c["sizing"] == "none", {}),
    ("ali_to", "torch_ali_data_dir_to_torch_token_data_dir", "ali", None, {}),
    ("to_ali", "torch_token_data_dir_to_torch_ali_data_dir", "ali", None, {}),
    ("subset", "subset_torch_spect_data_dir", "subset",
     lambda c: not c["mode"].startswith(("shortest", "longest")) and _n_selected(c) >= 3, {}),
    ("subset_len", "subset_torch_spect_data_dir", "subset",
     lambda c: c["mode"].startswith(("shortest", "longest")) and _n_selected(c) >= 3, {}),
    ("mvn", "compute_mvn_stats_for_torch_feat_data_dir", "mvn", None, {}),
    ("ali_mom", "print_torch_ali_data_dir_length_moments", "mom", None, {"which": "ali"}),
    ("ref_mom", "print_torch_ref_data_dir_length_moments", "mom", None, {"which": "ref"}),
    ("chunk", "chunk_torch_spect_data_dir", "chunk", None, {}),
]
MW_LABELS = [m[0] for m in MW]

# one multi-worker case every PERIOD cases
PERIOD = {"quick": 32, "thorough": 36}
BUDGET = {
    "quick": dict(cases=128, shards=4, timeout=600),
    "thorough": dict(cases=360, shards=16, timeout=1500),
}
MW_TIMEOUT = {"quick": 90, "thorough": 240}
MW_SLOTS = 6  # multi-worker cases in flight over all shards (each is up to ~12 interpreters importing torch)

_SUBS = {
    "trn": ["plain", "unk", "empty", "alt", "skip", "feat", "hostile_ids", "spacing"],
    "ctm": ["plain", "wc2utt", "utt2wc", "channel", "shift", "mixed_times", "skip", "feat", "unk", "comments"],
    "tg": ["interval", "point", "fill", "long_multi", "shift", "feat_dir", "skip", "feat", "unk", "tg_suffix"],
}
FLOORS = {
    "quick": {
        "events": dict({c: 6 for c in R.CMDS if c != "chunk_torch_spect_data_dir"},
                       **{"assert:trn-roundtrip": 20, "assert:ctm-roundtrip": 20, "assert:textgrid-roundtrip-tokens": 20,
                          "assert:ali-roundtrip": 40, "assert:batch-size-independence": 40, "assert:subset-selection": 30,
                          "assert:mvn-mean": 30, "assert:moments-mean": 10, "assert:worker-independence": 20,
                          "assert:worker-items-once": 20}),
        "classes": dict({f: 20 for f in INPROC}, **{"affix:prefix": 20, "affix:suffix": 20, "affix:both": 10,
                                                    "ali:prefix": 4, "distractors": 30, "multi-worker": 13}),
        "stats": {"mw_ok:" + lab: 1 for lab in MW_LABELS},
        "sets": {"completion_orders": 12, "reordered_completions": 6},
        "distinct": 150,
    },
    "thorough": {
        "events": dict({c: 100 for c in R.CMDS if c != "chunk_torch_spect_data_dir"},
                       **{"assert:worker-independence": 350, "assert:worker-items-once": 350}),
        "classes": dict({f: 400 for f in INPROC}, **{"affix:prefix": 500, "affix:suffix": 500, "ali:prefix": 80,
                                                     "multi-worker": 120}),
        "stats": {"mw_ok:" + lab: 8 for lab in MW_LABELS},
        "sets": {"completion_orders": 120, "reordered_completions": 60},
        "distinct": 3500,
    },
}
for _f, _subs in _SUBS.items():
    for _s in _subs:
        FLOORS["quick"]["classes"]["%s:%s" % (_f, _s)] = 1
        FLOORS["thorough"]["classes"]["%s:%s" % (_f, _s)] = 20


def _shard():
    """(shard, nshards) of this process: used only to spread the multi-worker commands over the shards."""
    a = sys.argv
    for k, x in enumerate(a):
        if x == "--shard" and k + 1 < len(a):
            try:
                s, n = a[k + 1].split("/")
                return int(s), int(n)
            except ValueError:
                break
    return 0, 1


def generate(rng, tier, i):
    period = PERIOD[tier]
    if i % period == 0:
        j = i // period
        shard, nshards = _shard()
        lab, cmd, fam, ok, kw = MW[(j * nshards + shard) % len(MW)]
        for attempt in range(200):
            case = GEN[fam](rng, tier, j * 7 + attempt, **kw)
            if _n_items(case) >= 4 and (ok is None or ok(case)):
                break
        if fam == "subset" and str(case.get("mode", "")).startswith("rand") and case.get("seed") is None:
            # an unseeded random selection legitimately differs between invocations: the worker twins
            # can only be compared when the selection is seeded
            case["seed"] = "7"
        case["class"] = "multi-worker"
        case["mw"] = lab
        case["target"] = cmd
        seeds = [rng.randrange(10 ** 6) for _ in range(3)]
        variants = [
            {"nw": 1, "chunk": 1000, "delay_seed": seeds[0], "delay_ms": 10},
            {"nw": 3, "chunk": 1, "delay_seed": seeds[1], "delay_ms": 250},
        ]
        if tier == "thorough":
            variants.append({"nw": rng.choice([2, 3, 4]), "chunk": rng.choice([1, 2, 1000]), "delay_seed": seeds[2],
                             "delay_ms": rng.choice([0, 50, 400])})
        n = _n_selected(case) if fam == "subset" else _n_items(case)
        for v in variants:
            v["barrier"] = min(v["nw"], n)
        case["variants"] = variants
        return case
    k = i - i // period - 1
    fam = INPROC[k % len(INPROC)]
    # the sub-class rotation starts at a different point in every shard
    case = GEN[fam](rng, tier, k // len(INPROC) + 4 * _shard()[0])
    case["class"] = fam
    return case


def _classes(case, mon):
    mon.cls("%s:%s" % (case["family"], case["sub"]))
    p, s = case.get("prefix", ""), case.get("suffix", ".pt")
    kind = "default" if (p, s) == ("", ".pt") else "prefix" if s == ".pt" else "suffix" if p == "" else "both"
    mon.cls("affix:" + kind)
    if case["family"] == "ali" and p != "":
        mon.cls("ali:prefix")
    if case.get("distract"):
        mon.cls("distractors")


def _comparable(out):
    return {k: v for k, v in out.items() if not k.startswith("_")}


def execute(case, mon):
    produce, judge = FAM.FAMILIES[case["family"]]
    _classes(case, mon)
    root = tempfile.mkdtemp(prefix="vmon-c17-")
    try:
        d0 = os.path.join(root, "w0")
        os.makedirs(d0)
        out0 = R.drive_inproc(produce(case, d0), mon)
        judge(case, out0, mon)
        if "target" in case and not os.environ.get("VMON_C17_NO_MW"):  # developer knob: floors then fail
            with R.Slots(MW_SLOTS) as slot:
                mon.stat("mw_slot_wait_ms", int(getattr(slot, "waited", 0) * 1000))
                _multi_worker(case, mon, root, produce, judge, out0)
    finally:
        shutil.rmtree(root, ignore_errors=True)


def _multi_worker(case, mon, root, produce, judge, out0):
    target, lab, variants = case["target"], case["mw"], case["variants"]
    mon.cls("mw:" + lab)
    dirs = []
    for k in range(len(variants)):
        d = os.path.join(root, "v%d" % k)
        os.makedirs(d)
        dirs.append(d)
    n_sub = [0] * len(variants)
    problems = []
    stderr_tail = [None] * len(variants)
    kindw = R.CMDS[target][2]

    def on_result(k, pending, res):
        v = variants[k]
        mon.ev("subprocess:" + target)
        mon.stat("subprocess_wall_ms", int(pending.wall * 1000))
        stderr_tail[k] = (res.stderr or "")[-1200:] if res.rc != 0 else None
        if res.timeout:
            problems.append("timeout")
            mon.stat("mw_timeout")
            return
        n_sub[k] += 1
        log = res.log or []
        wl = [e for e in log if e[0] == ("W" if kindw == "pool" else "D")]
        if kindw == "pool" or v["nw"] > 0:
            items = [repr(e[4]) for e in wl]
            # every work item exactly once (the log only exists if the shim was active in the children)
            mon.check(len(items) == len(set(items)), "worker-items-once", target=target, variant=v, items=items)
            if items:
                pids = sorted({e[1] for e in wl})
                order = [repr(e[4]) for e in sorted(wl, key=lambda e: e[3])]
                ranks = sorted(items)
                perm = ",".join(str(ranks.index(x)) for x in order)
                start_order = [repr(e[4]) for e in sorted(wl, key=lambda e: e[2])]
                mon.observe("completion_orders", "%s|%d|%s" % (lab, len(items), perm))
                if order != start_order:
                    mon.observe("reordered_completions", "%s|%s" % (lab, perm))
                mon.observe("workers_used", "%s|nw=%d|pids=%d" % (lab, v["nw"], len(pids)))
                mon.stat("worker_items_logged", len(items))
                mon.check(len(pids) <= max(v["nw"], 1), "worker-count", target=target, variant=v, pids=pids)
            else:
                mon.stat("mw_empty_log:" + lab)

    outs = R.drive_variants(lambda k: produce(case, dirs[k]), variants, target, mon, lambda k: dirs[k],
                            MW_TIMEOUT.get(mon.tier, 150), on_result)
    if problems:
        # a watchdog kill is not a verdict: the per-command floor `mw_ok:<cmd>` is not fed -> INCONCLUSIVE
        mon.ood("subprocess-timeout")
        return
    base = _comparable(out0)
    for k, out in enumerate(outs):
        mon.check(n_sub[k] >= 1, "target-was-invoked", target=target, variant=variants[k])
        mon.check(out is not None, "worker-independence", target=target, variant=variants[k], diff="scenario did not finish")
        diff = R.first_diff(base, _comparable(out))
        mon.check(diff is None, "worker-independence", target=target, variant=variants[k], diff=diff,
                  stderr=stderr_tail[k])
        mon.cls("workers:%d" % variants[k]["nw"])
    mon.stat("mw_ok:" + lab)


def classify(entry_id, vrec):
    return False
