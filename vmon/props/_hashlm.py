"""Instrumented language models handed to the library (DESIGN 2.1 mechanism C; C04, C07).

`HashLM`  next-token logits are a fixed table indexed by a rolling hash of the whole history
          and of a per-batch-element conditioning value taken from `initial_state["cond"]`.
          The hash (and the conditioning value) are threaded through the state dictionary
          exactly like an RNN state: `extract_by_src` re-orders them, `mix_by_mask` mixes them.
          Inside `calc_idx_log_probs` the model compares the state it was handed with the
          hash of exactly the history it was handed, row by row, and *records* the outcome.
          The verdict on that record is taken offline by the property module, which knows
          which rows were live (finite score, batch element not yet frozen).
`make_rnnlm` a small GRU-cell model (realistic threaded state), scored by its own full pass.

The stateless twin of HashLM (same table, evaluated from scratch) is
`vmon.oracles.c04_hashtable.Evaluator`.
"""
from ..oracles import c04_hashtable as HT

RUNAWAY_CAP = 200
_CLASSES = {}


class Runaway(RuntimeError):
    """The library asked for a step far beyond anything the workload allows."""


def _lib():
    import torch
    from pydrobert.torch.modules import MixableSequentialLanguageModel

    return torch, MixableSequentialLanguageModel


def hash_rows(torch, cond, hist, upto):
    """H(cond[r], hist[:upto[r], r]) for every row r, vectorised (int64)."""
    R = hist.size(1)
    h = (cond * HT.C0 + HT.C1) % HT.P
    S = hist.size(0)
    upto = upto.expand(R) if upto.dim() == 0 else upto
    for s in range(S):
        if not bool((upto > s).any()):
            break
        nh = (h * HT.A + hist[s] + 1) % HT.P
        h = torch.where(upto > s, nh, h)
    return h


def hashlm_class():
    if "hash" in _CLASSES:
        return _CLASSES["hash"]
    torch, Base = _lib()

    class HashLM(Base):
        def __init__(self, spec):
            super().__init__(spec["V"])
            self.spec = spec
            self.M = spec["M"]
            self.table = torch.tensor(HT.build_table(spec), dtype=torch.float32)
            cb = spec.get("cbias") or [[0.0] * spec["V"]]
            self.cbias = torch.tensor(cb, dtype=torch.float32)
            self.log = []  # one record per calc_idx_log_probs call
            self.ops = []  # extract/mix operations, in call order
            self.cond0 = None
            self.calls = 0

        # ---- harness side
        def begin(self, cond0=None):
            """Start of a monitored library call: forget the log, remember which
            conditioning value belongs to which batch element."""
            self.log, self.ops, self.calls = [], [], 0
            self.cond0 = None if cond0 is None else torch.tensor(cond0, dtype=torch.long)

        def initial_state(self, cond):
            return {"cond": torch.tensor(cond, dtype=torch.long)}

        # ---- library side
        def update_input(self, prev, hist):
            # `rebuild_state`: a model that derives its starting state from the static input on EVERY call, without
            # looking whether it is already there.  The documentation hands update_input "the initial prev
            # dictionary ... prior to calculating any log probabilities" and asks only for idempotence there,
            # which this satisfies; applied to a state in mid-search it resets the model to the start.
            if "h" in prev and not getattr(self, "rebuild_state", False):
                return prev
            N = hist.size(1)
            cond = prev.get("cond")
            if cond is None:
                cond = torch.zeros(N, dtype=torch.long)
            elif cond.numel() == 1 and N != 1:
                cond = cond.reshape(1).expand(N).contiguous()
            out = prev if getattr(self, "inplace_state", False) else dict(prev)
            out["cond"] = cond
            out["h"] = (cond * HT.C0 + HT.C1) % HT.P
            return out

        def extract_by_src(self, prev, src):
            self.ops.append(("extract", int(src.numel())))
            return {k: v.index_select(0, src) for k, v in prev.items()}

        def mix_by_mask(self, prev_true, prev_false, mask):
            self.ops.append(("mix", int(mask.sum())))
            return {k: torch.where(mask, prev_true[k], prev_false[k]) for k in prev_true}

        def calc_idx_log_probs(self, hist, prev, idx):
            self.calls += 1
            if int(idx.max()) > RUNAWAY_CAP:
                raise Runaway("step %d requested" % int(idx.max()))
            R = hist.size(1)
            h, cond = prev["h"], prev["cond"]
            idxr = idx.expand(R) if idx.dim() == 0 else idx
            consumed = (idxr - 1).clamp(min=0)
            # --- the self-check: the state handed in must be the hash of hist[:idx-1]
            want = hash_rows(torch, cond, hist, consumed)
            rec = {
                "call": self.calls, "idx": idxr.clone(), "rows": R,
                "state_ok": (want == h).clone(), "h": h.clone(), "want": want,
                "cond": cond.clone(), "hist": hist.clone(),
            }
            if self.cond0 is not None and R % max(1, self.cond0.numel()) == 0:
                per = R // self.cond0.numel()
                rec["cond_ok"] = cond == self.cond0.repeat_interleave(per)
            else:
                rec["cond_ok"] = None
            self.log.append(rec)
            # --- advance the state by the token at idx-1 and answer from the table
            if hist.size(0):
                tok = hist.gather(0, consumed.unsqueeze(0)).squeeze(0)
            else:
                tok = torch.zeros(R, dtype=torch.long)
            nh = (h * HT.A + tok + 1) % HT.P
            nh = torch.where(idxr > 0, nh, h)
            logits = self.table[nh % self.M] + self.cbias[cond % self.cbias.size(0)]
            eos = getattr(self, "post_eos_zero", None)
            if eos is not None and hist.size(0):
                # a model that never repeats the end symbol: once the consumed history contains eos, eos itself
                # gets probability zero.  Whatever a model says about a FINISHED path must not matter.
                S = hist.size(0)
                seen = ((hist == eos) & (torch.arange(S).unsqueeze(1) < idxr.unsqueeze(0))).any(0)
                if bool(seen.any()):
                    logits = logits.clone()
                    logits[seen, eos] = float("-inf")
            if getattr(self, "inplace_state", False):
                # a model that keeps its state in the dictionary it was handed (nothing forbids that): callers
                # that share one dictionary between independent draws get the previous draw's final state
                prev["h"] = nh
                return logits, prev
            nxt = dict(prev)
            nxt["h"] = nh
            return logits, nxt

    _CLASSES["hash"] = HashLM
    return HashLM


def make_hashlm(spec):
    return hashlm_class()(spec)


def rnnlm_class():
    if "rnn" in _CLASSES:
        return _CLASSES["rnn"]
    torch, Base = _lib()

    class SmallRNNLM(Base):
        """GRU-cell language model; the hidden state is the threaded state; the per-element
        conditioning is the initial hidden state.  `calc_full_log_probs` is the inherited
        step loop, so `lm(hist, state)` is the model's own chained definition."""

        def __init__(self, V, hidden, seed, scale):
            super().__init__(V)
            g = torch.Generator().manual_seed(int(seed))
            self.hidden = hidden
            self.embed = torch.nn.Embedding(V + 1, hidden)
            self.cell = torch.nn.GRUCell(hidden, hidden)
            self.ff = torch.nn.Linear(hidden, V)
            with torch.no_grad():
                for p in self.parameters():
                    p.copy_(torch.randn(p.shape, generator=g) * scale)
            for p in self.parameters():
                p.requires_grad_(False)
            self.calls = 0

        def update_input(self, prev, hist):
            if "hidden" in prev:
                return prev
            return {"hidden": torch.zeros(hist.size(1), self.hidden)}

        def extract_by_src(self, prev, src):
            return {"hidden": prev["hidden"].index_select(0, src)}

        def mix_by_mask(self, prev_true, prev_false, mask):
            return {"hidden": torch.where(mask.unsqueeze(1), prev_true["hidden"], prev_false["hidden"])}

        def calc_idx_log_probs(self, hist, prev, idx):
            self.calls += 1
            if int(idx.max()) > RUNAWAY_CAP:
                raise Runaway("step %d requested" % int(idx.max()))
            R = hist.size(1)
            idxr = idx.expand(R) if idx.dim() == 0 else idx
            if hist.size(0):
                x = hist.gather(0, (idxr - 1).clamp(min=0).unsqueeze(0)).squeeze(0)
            else:
                x = torch.zeros(R, dtype=torch.long)
            x = x.masked_fill(idxr == 0, self.vocab_size)
            h1 = self.cell(self.embed(x), prev["hidden"])
            return self.ff(h1), {"hidden": h1}

    _CLASSES["rnn"] = SmallRNNLM
    return SmallRNNLM


def make_rnnlm(V, hidden, seed, scale):
    return rnnlm_class()(V, hidden, seed, scale)
