"""C18 - normalisation statistics, deltas and returns equal their defining formulas."""
import math
import os
import shutil
import struct
import tempfile
import warnings

import numpy as np

from ..oracles import c18_deltas as OD
from ..oracles import c18_returns as OR
from ..oracles import c18_stats as OS

from .. import layout as LY

ID = "C18"
LEVEL = "exploration"
RULE = (
    "class-directed random cases, one of four kinds per case: (mvn) a data set of 1-16 ragged 'atom' tensors "
    "(1-4 dims, any `dim`, float32/float64; generic / constant coefficients / large mean with small deviation / "
    "single-frame chunks / one or two frames in total) accumulated under three different histories (random "
    "permutation of the atoms, random grouping into chunks, optional mid-way store) with biased or Bessel "
    "estimator, then normalised; (mvn_own/given) normalisation with the input's own or supplied statistics, "
    "module and functional; (cmd) compute-mvn-stats-for-torch-feat-data-dir run in-process (num-workers 0) on a "
    "scratch directory under two different file namings, with and without groups; (deltas) feat_deltas/"
    "FeatureDeltas for every (dim, time_dim, concatenate), orders 0-3, widths 1-3, four padding modes; (returns) "
    "time_distributed_return for gamma in {0, .1, .25, .5, .9, .99, 1, 1.01, 1.1, 1.5, 2, negative}, both "
    "layouts, horizons up to 400 (quick) / 600 (thorough) with a tenth of the long-horizon class at "
    "1100-2000, sparse rewards.  A case is distinct by the hash of "
    "its concrete inputs and non-trivial if the definition is exercised beyond the identity: mvn - at least two "
    "frames, a coefficient of non-zero variance and a history with two or more chunks; own/given - a coefficient "
    "of non-zero variance; cmd - two or more files; deltas - order >= 1 and two or more time steps; returns - "
    "gamma != 0, two or more steps and a non-zero reward after the first step"
)
ASSUMPTIONS = [
    "oracles: exactly-summed two-pass float64 statistics, recursive NumPy regression over the padded time axis, "
    "backward float64 recursion for returns (vmon/oracles/c18_*.py)",
    "stored statistics compared with 1e-6 relative + 1e-9 absolute plus the conditioning of sumsq/n - mean^2 "
    "in double precision (64 ulps of sumsq/n); workloads keep |mean|/std <= 2e4",
    "normalised values are computed by the library in the input's precision: element tolerance "
    "4*eps*(|x|+|mean|)/std + 1e-5*|y| + 1e-6; zero-mean/unit-variance only asserted for coefficients whose "
    "deviation exceeds eps and whose element tolerance is below 0.02",
    "deltas: 1e-4 * max(1, max|x|, |value|) (float32 composite filters)",
    "returns: 2*eps*(horizon+8) * sum_k |gamma|^k |r_(t+k)| (float32 powers of gamma carry k*eps relative "
    "error); for gamma > 1 horizons are limited to gamma^(T-1) < 1e30",
    "a fill value is only passed together with constant padding; reflect padding >= T and circular padding > T "
    "are PyTorch preconditions (out-of-domain)",
    "USE_JIT off (library runs as plain Python); command-line tool called in-process with --num-workers 0",
]
CLASSES = [
    "mvn_generic", "deltas_replicate", "ret_generic", "mvn_const_coeff", "deltas_constant",
    "ret_long_small_gamma", "mvn_large_mean", "deltas_reflect", "ret_sparse", "mvn_single_frame_chunks",
    "deltas_circular", "ret_gamma_gt1", "mvn_few_frames", "deltas_dim_eq_time", "ret_gamma_0_1",
    "mvn_own", "mvn_given", "cmd_plain", "cmd_groups", "ret_neg_gamma",
]
BUDGET = {
    "quick": dict(cases=300, shards=4, timeout=600),
    "thorough": dict(cases=8000, shards=16, timeout=3000),
}
_EV_Q = {
    "accumulate": 1500, "store": 500, "mvn_call": 400, "mean_var_norm": 30, "feat_deltas": 100,
    "FeatureDeltas": 100, "time_distributed_return": 120, "TimeDistributedReturn": 120,
    "compute_mvn_stats_cmd": 150,
    "assert:stat-mean": 400, "assert:stat-std": 400, "assert:history-agreement": 250,
    "assert:normalised-value": 400, "assert:zero-mean": 150, "assert:unit-variance": 150,
    "assert:delta-value": 200, "assert:delta-shape": 200, "assert:return-value": 250,
    "assert:return-recursion": 250, "assert:cmd-mean": 100, "assert:cmd-std": 100,
    "assert:cmd-order-invariance": 60,
}
FLOORS = {
    "quick": {
        "events": _EV_Q,
        "classes": dict({c: 40 for c in CLASSES}, const_coefficient=60, float32=300, float64=150,
                        bessel=80, midway_store=30, single_frame_total=8, gamma_underflow=25,
                        dim_negative=150, concatenate=100, stack=100),
        "sets": {"histories": 300, "delta_configs": 200, "gammas": 10},
        "distinct": 700,
    },
    "thorough": {
        "events": {k: v * 10 for k, v in _EV_Q.items()},
        "classes": dict({c: 600 for c in CLASSES}, const_coefficient=900, gamma_underflow=400,
                        single_frame_total=100, midway_store=600, horizon_over_1000=40),
        "sets": {"histories": 4000, "delta_configs": 1200, "gammas": 12},
        "distinct": 9000,
    },
}

EPS = {"float32": OS.EPS32, "float64": OS.EPS64}


# --------------------------------------------------------------------------
# generation


def _f32(v):
    return struct.unpack("f", struct.pack("f", v))[0]


def _rnd(v, dtype):
    return _f32(v) if dtype == "float32" else float(v)


def _nested(shape, fn, pos=()):
    if len(shape) == len(pos):
        return fn(pos)
    return [_nested(shape, fn, pos + (k,)) for k in range(shape[len(pos)])]


def _coef_params(rng, X, flavour):
    """(mu, sd) per coefficient; sd == 0 means constant."""
    out = []
    for i in range(X):
        if flavour == "large_mean":
            mu = rng.choice([-1, 1]) * rng.uniform(100, 1000)
            sd = rng.uniform(0.05, 1.0)
        else:
            mu, sd = rng.uniform(-3, 3), rng.uniform(0.1, 3.0)
        if flavour == "const" and (i == 0 or rng.random() < 0.4):
            mu, sd = rng.choice([0.3, 0.1, -1.7, 1000.1, 0.0, 1.0 / 3.0, 7.0, rng.uniform(-50, 50)]), 0.0
        out.append((mu, sd))
    return out


def _gen_values(rng, shape, pdim, params, dtype):
    def fn(pos):
        mu, sd = params[pos[pdim]]
        return _rnd(mu + (sd * rng.gauss(0, 1) if sd else 0.0), dtype)

    return _nested(shape, fn)


def _gen_mvn(rng, tier, cls):
    big = tier == "thorough"
    dtype = rng.choice(["float32", "float32", "float64"])
    flavour = {"mvn_const_coeff": "const", "mvn_large_mean": "large_mean"}.get(cls, "generic")
    if cls == "mvn_few_frames" and rng.random() < 0.4:
        flavour = rng.choice(["const", "large_mean"])
    D = rng.choice([1, 2, 2, 3, 3, 4])
    dim = rng.randrange(-D, D)
    pdim = dim % D
    X = rng.randint(1, 5)
    cat_axis = None if D == 1 else rng.choice([a for a in range(D) if a != pdim])
    base = [rng.randint(1, 3) for _ in range(D)]
    base[pdim] = X
    single = cls in ("mvn_single_frame_chunks", "mvn_few_frames")
    if single:
        base = [1] * D
        base[pdim] = X
    if cls == "mvn_few_frames":
        K = rng.choice([1, 1, 2])
    else:
        K = rng.randint(2, 16 if big else 8)
    params = _coef_params(rng, X, flavour)
    atoms = []
    for _ in range(K):
        shape = list(base)
        if cat_axis is not None and not single:
            shape[cat_axis] = rng.randint(1, 4)
        atoms.append(_gen_values(rng, shape, pdim, params, dtype))
    if cls == "mvn_few_frames" and K == 1 and cat_axis is not None and rng.random() < 0.5:
        shape = list(base)
        shape[cat_axis] = 2
        atoms = [_gen_values(rng, shape, pdim, params, dtype)]
    hists = []
    for h in range(3):
        perm = list(range(K))
        if h:
            rng.shuffle(perm)
        if cat_axis is None or single or (h == 1 and rng.random() < 0.3):
            chunks = [[a] for a in perm]
        elif h == 0 and rng.random() < 0.3:
            chunks = [perm]
        else:
            chunks, cur = [], []
            for a in perm:
                cur.append(a)
                if rng.random() < 0.5:
                    chunks.append(cur)
                    cur = []
            if cur:
                chunks.append(cur)
        midway = None
        if h and len(chunks) > 1 and rng.random() < 0.4:
            midway = rng.randrange(0, len(chunks) - 1)
        hists.append({"chunks": chunks, "midway": midway})
    return {
        "class": cls, "kind": "mvn", "dtype": dtype, "dim": dim, "cat_axis": cat_axis, "atoms": atoms,
        "histories": hists, "bessel": rng.random() < 0.4, "delete_stats": rng.random() < 0.5,
        "eps": rng.choice([None, None, 1e-3, 0.5]),
    }


def _gen_norm(rng, tier, cls):
    dtype = rng.choice(["float32", "float64"])
    D = rng.choice([1, 2, 3, 4])
    dim = rng.randrange(-D, D)
    pdim = dim % D
    shape = [rng.randint(1, 4) for _ in range(D)]
    X = shape[pdim]
    flavour = rng.choice(["generic", "generic", "const", "large_mean"])
    params = _coef_params(rng, X, flavour)
    x = _gen_values(rng, shape, pdim, params, dtype)
    given = "none" if cls == "mvn_own" else rng.choice(["both", "both", "mean", "std"])
    stat_dtype = rng.choice([dtype, "float64"])
    mean = [_rnd(rng.uniform(-3, 3) + p[0], stat_dtype) for p in params] if given in ("both", "mean") else None
    std = [_rnd(rng.choice([rng.uniform(0.05, 3), rng.uniform(0.05, 3), 0.0]), stat_dtype) for _ in params] \
        if given in ("both", "std") else None
    return {
        "class": cls, "kind": "norm", "dtype": dtype, "stat_dtype": stat_dtype, "dim": dim, "x": x,
        "mean": mean, "std": std, "eps": rng.choice([None, 1e-3, 0.5]),
        "form": rng.choice(["module", "functional"]),
    }


def _gen_cmd(rng, tier, cls):
    dtype = rng.choice(["float32", "float32", "float64"])
    D = rng.choice([1, 2, 2, 3])
    use_dim = D == 1 or rng.random() < 0.5
    dim = rng.randrange(-D, D) if use_dim else -1
    if D == 1:
        dim = rng.choice([0, -1])
    pdim = dim % D
    X = rng.randint(1, 4)
    K = rng.randint(2, 6)
    flavour = rng.choice(["generic", "generic", "const", "large_mean"])
    params = _coef_params(rng, X, flavour)
    groups = None
    if cls == "cmd_groups":
        G = rng.randint(1, min(3, K))
        gnames = ["g%d" % g for g in range(G)]
        groups = [gnames[k] if k < G else rng.choice(gnames) for k in range(K)]
        rng.shuffle(groups)
    tensors = []
    for k in range(K):
        shape = [rng.randint(1, 4) for _ in range(D)]
        shape[pdim] = X
        if D == 1:
            shape = [X]
        tensors.append(_gen_values(rng, shape, pdim, params, dtype))
    names_a = ["utt%02d" % k for k in range(K)]
    names_b = list(names_a)
    rng.shuffle(names_b)
    fix = rng.choice([("", ".pt"), ("", ".pt"), ("p_", ".pt"), ("", ".feat.pt"), ("x-", ".f")])
    return {
        "class": cls, "kind": "cmd", "dtype": dtype, "dim": dim, "pass_dim": bool(use_dim), "tensors": tensors,
        "groups": groups, "names": [names_a, names_b], "bessel": rng.random() < 0.4,
        "prefix": fix[0], "suffix": fix[1],
    }


def _gen_deltas(rng, tier, cls):
    dtype = rng.choice(["float32", "float32", "float64"])
    mode = {"deltas_replicate": "replicate", "deltas_constant": "constant", "deltas_reflect": "reflect",
            "deltas_circular": "circular"}.get(cls) or rng.choice(["replicate", "constant", "reflect", "circular"])
    D = rng.choice([1, 2, 2, 3, 3, 4])
    order, width = rng.randint(0, 3), rng.randint(1, 3)
    pad = order * width
    time_dim = rng.randrange(-D, D)
    pt = time_dim % D
    concatenate = rng.random() < 0.5
    DD = D if concatenate else D + 1
    if cls == "deltas_dim_eq_time":
        cand = [d for d in (pt - 1, pt, pt + 1) if 0 <= d < DD]
        dim = rng.choice(cand)
        if rng.random() < 0.5:
            dim -= DD
    else:
        dim = rng.randrange(-DD, DD)
    shape = [rng.randint(1, 4) for _ in range(D)]
    lo = 1
    if mode == "reflect":
        lo = pad + 1
    elif mode == "circular":
        lo = max(pad, 1)
    T = rng.randint(lo, lo + 5)
    if mode in ("reflect", "circular") and pad > 1 and rng.random() < 0.08:
        T = rng.randint(1, pad - 1)  # PyTorch precondition: out-of-domain
    shape[pt] = T
    value = rng.choice([0.0, 1.5, -3.0, 0.25]) if mode == "constant" else 0.0
    x = _nested(shape, lambda pos: _rnd(rng.gauss(0, 1) * rng.choice([1, 1, 5]), dtype))
    return {
        "class": cls, "kind": "deltas", "dtype": dtype, "x": x, "dim": dim, "time_dim": time_dim,
        "concatenate": concatenate, "order": order, "width": width, "pad_mode": mode, "value": value,
        "form": rng.choice(["module", "functional"]),
    }


def _gen_returns(rng, tier, cls):
    big = tier == "thorough"
    dtype = rng.choice(["float32", "float32", "float32", "float64"])
    N = rng.randint(1, 3)
    cap = 600 if big else 400  # a T x T discount matrix per call: keep the bulk moderate
    if cls == "ret_generic":
        gamma, T = rng.choice([0.1, 0.5, 0.9, 0.99, 0.3, 0.7]), rng.randint(1, 40)
    elif cls == "ret_long_small_gamma":
        gamma = rng.choice([0.1, 0.25, 0.5, 0.5])
        T = rng.randint(160, cap)
        if rng.random() < 0.1:
            gamma, T = rng.choice([0.9, 0.99, 0.5]), rng.randint(1100, 2000 if big else 1300)
            N = 1
        if dtype == "float64" and rng.random() < 0.7:
            dtype = "float32"
    elif cls == "ret_sparse":
        gamma, T = rng.choice([0.1, 0.5, 0.9, 0.99, 1.0, 1.5, 0.0]), rng.randint(3, 120)
    elif cls == "ret_gamma_gt1":
        gamma = rng.choice([1.5, 2.0, 1.01, 1.1])
        tmax = int(1 + 30 * math.log(10) / math.log(gamma))
        while gamma ** (tmax - 1) >= 1e30:
            tmax -= 1
        T = rng.randint(1, min(tmax, cap))
    elif cls == "ret_gamma_0_1":
        gamma, T = rng.choice([0.0, 1.0]), rng.randint(1, cap if rng.random() < 0.3 else 60)
    else:
        gamma, T = rng.choice([-0.5, -1.0, -0.9, -0.1]), rng.randint(1, 80)
    style = "sparse" if cls == "ret_sparse" else rng.choice(["gauss", "gauss", "ints", "ones"])
    if style == "sparse":
        hot = {(rng.randrange(T), rng.randrange(N)) for _ in range(rng.randint(1, 3))}
        if rng.random() < 0.5:
            hot.add((T - 1, rng.randrange(N)))
        r = [[_rnd(rng.choice([1.0, -1.0, rng.gauss(0, 3)]), dtype) if (t, n) in hot else 0.0
              for n in range(N)] for t in range(T)]
    elif style == "ints":
        r = [[float(rng.randint(-3, 3)) for _ in range(N)] for _ in range(T)]
    elif style == "ones":
        r = [[1.0] * N for _ in range(T)]
    else:
        r = [[_rnd(rng.gauss(0, 1), dtype) for _ in range(N)] for _ in range(T)]
    return {
        "class": cls, "kind": "returns", "dtype": dtype, "r": r, "gamma": gamma,
        "batch_first": rng.random() < 0.5, "form": rng.choice(["module", "functional"]),
    }


def generate(rng, tier, i):
    cls = CLASSES[i % len(CLASSES)]
    if cls in ("mvn_own", "mvn_given"):
        return _gen_norm(rng, tier, cls)
    if cls.startswith("mvn_"):
        return _gen_mvn(rng, tier, cls)
    if cls.startswith("cmd_"):
        return _gen_cmd(rng, tier, cls)
    if cls.startswith("deltas_"):
        return _gen_deltas(rng, tier, cls)
    return _gen_returns(rng, tier, cls)


# --------------------------------------------------------------------------
# helpers for execution


def _tdt(name):
    import torch

    return {"float32": torch.float32, "float64": torch.float64}[name]


def _np(t):
    return t.detach().cpu().double().numpy()


def _close_arr(mon, got, want, tol, monitor, mask=None, **details):
    """Element-wise |got - want| <= tol where mask; NaN/inf never close.  Records the
    largest deviation relative to its tolerance (so the recorded tolerance is 1)."""
    got = np.asarray(got, dtype=np.float64)
    want = np.asarray(want, dtype=np.float64)
    tol = np.broadcast_to(np.asarray(tol, dtype=np.float64), want.shape)
    if got.shape != want.shape:
        mon.check(False, monitor, reason="shape", observed_shape=list(got.shape), expected_shape=list(want.shape),
                  **details)
    m = np.ones(want.shape, dtype=bool) if mask is None else np.broadcast_to(mask, want.shape)
    if not m.any():
        return 0
    with np.errstate(all="ignore"):
        diff = np.abs(got - want)
        bad = m & ~(diff <= tol)
        ratio = np.where(m & np.isfinite(diff), diff / np.maximum(tol, 1e-300), 0.0)
    if bad.any():
        idx = tuple(int(v) for v in np.argwhere(bad)[0])
        mon.check(False, monitor, index=list(idx), observed=float(got[idx]), expected=float(want[idx]),
                  tol=float(tol[idx]), n_bad=int(bad.sum()), **details)
    mon.check(True, monitor)
    mon.dev(monitor + " (deviation/tolerance)", float(ratio.max()), 1.0)
    return int(m.sum())


def _mk_mvn(M, dim, eps, mean=None, std=None):
    if eps is None:
        return M.MeanVarianceNormalization(dim, mean, std)
    return M.MeanVarianceNormalization(dim, mean, std, eps)


def _default_eps():
    from pydrobert.torch import config

    return float(config.TINY)


def _check_stats(mon, mean_t, std_t, obs, bessel, where, **details):
    """Stored statistics against the pooled definition.  Returns lists (mean, std)."""
    X, n = obs.shape
    mean_o, std_o, msq = OS.pooled_stats(obs, bessel)
    mon.check(tuple(mean_t.shape) == (X,) and tuple(std_t.shape) == (X,), "stat-shape",
              observed=[list(mean_t.shape), list(std_t.shape)], expected=[X], where=where, **details)
    got_m, got_s = [float(v) for v in mean_t], [float(v) for v in std_t]
    for i in range(X):
        scale = math.sqrt(msq[i])
        mon.close(got_m[i], mean_o[i], 1e-12 + 1e-10 * scale, "stat-mean", coefficient=i, n=n, where=where,
                  **details)
        mon.close(got_s[i], std_o[i], OS.std_tolerance(std_o[i], msq[i]), "stat-std", coefficient=i, n=n,
                  bessel=bessel, where=where, **details)
    return got_m, got_s


def _check_normalised(mon, pairs, dim, mean, std, eps, dtype, ddof, own, stat_tol=None):
    """pairs: list of (x ndarray, y ndarray from the library).  Element-wise formula with the
    float64 statistics `mean`/`std`; then zero mean / unit variance over the pooled output for the
    coefficients where that is well conditioned (`own`: statistics are those of the pooled data)."""
    e = EPS[dtype]
    X = len(mean)
    worst = np.zeros(X)
    checked = 0
    for x, y in pairs:
        want = OS.normalise(x, dim, mean, std, eps)
        tol = OS.y_tolerance(x, dim, mean, std, eps, e, stat_tol=stat_tol)
        with np.errstate(all="ignore"):
            ok = np.isfinite(tol) & (tol < 0.5) & np.isfinite(want)
        checked += _close_arr(mon, y, want, tol, "normalised-value", mask=ok, dim=dim, eps=eps)
        t = np.where(np.isfinite(tol), tol, np.inf)
        worst = np.maximum(worst, OS.frames_of(t, dim).max(axis=1))
    mon.stat("normalised_elements_checked", checked)
    if not own:
        return
    yobs = OS.pool([y for _, y in pairs], dim)
    n = yobs.shape[1]
    for i in range(X):
        if not (std[i] > eps and worst[i] <= 0.02 and n - ddof >= 1 and std[i] > 0):
            mon.stat("coefficient_not_normalisable")
            continue
        row = [float(v) for v in yobs[i]]
        if not all(math.isfinite(v) for v in row):
            mon.fail("zero-mean", coefficient=i, reason="non-finite normalised value", values=row[:20])
        m = math.fsum(row) / n
        v = math.fsum((a - m) * (a - m) for a in row) / (n - ddof)
        ymax = max(abs(a) for a in row)
        mon.close(m, 0.0, worst[i] + 1e-6, "zero-mean", coefficient=i, n=n)
        mon.close(v, 1.0, 4 * worst[i] * max(ymax, 1.0) + 1e-5, "unit-variance", coefficient=i, n=n, ddof=ddof)


# --------------------------------------------------------------------------
# execution: accumulate / store / call


def _exec_mvn(case, mon):
    import torch
    import pydrobert.torch.modules as M

    dt = _tdt(case["dtype"])
    dim, bessel = case["dim"], case["bessel"]
    eps = case["eps"] if case["eps"] is not None else _default_eps()
    atoms_np = [np.asarray(a, dtype=np.float64) for a in case["atoms"]]
    atoms_t = [torch.tensor(a, dtype=dt) for a in case["atoms"]]
    obs = OS.pool(atoms_np, dim)
    X, n = obs.shape
    need = 2 if bessel else 1
    mon.cls(case["dtype"], "bessel" if bessel else "biased", "dim_negative" if dim < 0 else "dim_nonneg")
    mean_o, std_o, msq = OS.pooled_stats(obs, False)
    nconst = sum(1 for s in std_o if s == 0.0)
    if nconst and n > 1:
        mon.cls("const_coefficient")
    if n == 1:
        mon.cls("single_frame_total")
    ax = case["cat_axis"]

    def chunk_t(ids):
        return atoms_t[ids[0]] if len(ids) == 1 else torch.cat([atoms_t[a] for a in ids], ax)

    def chunk_np(ids):
        return atoms_np[ids[0]] if len(ids) == 1 else np.concatenate([atoms_np[a] for a in ids], ax)

    stored = []
    first = None
    for hi, h in enumerate(case["histories"]):
        m = _mk_mvn(M, dim, case["eps"])
        mon.observe("histories", "%d|%s" % (len(case["atoms"]), h["chunks"]))
        seen = []
        held = None
        for j, ids in enumerate(h["chunks"]):
            ct = chunk_t(ids)
            if hi and (j + hi) % 2 == 0:
                # the same frames handed over with one more axis of size one (a single utterance next to a batch):
                # in front when the feature axis is counted from the end, at the back when it is counted from the
                # front - the chunks of one history then differ in rank
                ct = ct.unsqueeze(0) if dim < 0 else ct.unsqueeze(-1)
                mon.cls("mvn_chunk_of_another_rank")
            mon.lib("accumulate", m.accumulate, ct)
            seen.append(chunk_np(ids))
            if j + 1 < len(h["chunks"]):
                # the accumulating object travels (deepcopy / pickle) between two chunks
                m = LY.travelled(m, hi, j, n, toggle_ok=False)
            if h["midway"] == j:
                so_far = OS.pool(seen, dim)
                if so_far.shape[1] >= need:
                    mon.cls("midway_store")
                    mon.lib("store", m.store, False, bessel)
                    _check_stats(mon, m.mean, m.std, so_far, bessel, "midway", history=hi)
                    held = (m.mean, m.std, so_far)  # the caller keeps what this round gave it (no clone)
        if n < need:
            # the estimator is undefined: the documentation promises a RuntimeError
            mon.lib("store", m.store, case["delete_stats"], bessel, documented=(RuntimeError,))
            mon.ood("estimator-undefined-but-stored")
            return
        mon.lib("store", m.store, case["delete_stats"], bessel)
        mon.check(m.mean is not None and m.std is not None, "stat-stored", history=hi)
        got = _check_stats(mon, m.mean, m.std, obs, bessel, "final", history=hi, chunks=h["chunks"])
        stored.append(got)
        if held is not None:
            # ... and still has them after the module went on accumulating and stored again
            _check_stats(mon, held[0], held[1], held[2], bessel, "midway (looked at again after the final store)",
                         history=hi)
            mon.stat("held_statistics_rechecked")
        if first is None:
            first = LY.travelled(m, n, X, dim)
    # every history agrees with every other one (besides agreeing with the oracle)
    _, std_b, _ = OS.pooled_stats(obs, bessel)
    for hi in range(1, len(stored)):
        for i in range(X):
            mon.close(stored[hi][0][i], stored[0][0][i], 2e-12 + 2e-10 * math.sqrt(msq[i]), "history-agreement",
                      what="mean", coefficient=i, history=hi)
            mon.close(stored[hi][1][i], stored[0][1][i], 2 * OS.std_tolerance(std_b[i], msq[i]),
                      "history-agreement", what="std", coefficient=i, history=hi)
    # normalising the pooled data with the stored statistics
    pairs = []
    for ids in case["histories"][0]["chunks"]:
        x = chunk_t(ids)
        y = mon.lib("mvn_call", first, x)
        mon.check(tuple(y.shape) == tuple(x.shape) and y.dtype == x.dtype, "normalised-shape",
                  observed=[list(y.shape), str(y.dtype)], expected=[list(x.shape), str(x.dtype)])
        pairs.append((chunk_np(ids), _np(y)))
    stat_tol = ([1e-12 + 1e-10 * math.sqrt(q) for q in msq],
                [OS.std_tolerance(s, q) for s, q in zip(std_b, msq)])
    _check_normalised(mon, pairs, dim, mean_o, std_b, eps, case["dtype"], 1 if bessel else 0, own=True,
                      stat_tol=stat_tol)
    multi = any(len(h["chunks"]) > 1 for h in case["histories"])
    if not (n >= 2 and nconst < X and multi):
        mon.trivial()


def _exec_norm(case, mon):
    import torch
    import pydrobert.torch.functional as F
    import pydrobert.torch.modules as M

    dt, sdt = _tdt(case["dtype"]), _tdt(case["stat_dtype"])
    dim = case["dim"]
    eps = case["eps"] if case["eps"] is not None else _default_eps()
    x_np = np.asarray(case["x"], dtype=np.float64)
    x = LY.relayout(torch.tensor(case["x"], dtype=dt), case.get("layout") or LY.pick(x_np.size, x_np.ndim, dim))
    mon.cls(case["dtype"], "dim_negative" if dim < 0 else "dim_nonneg", "norm_" + case["form"])
    obs = OS.frames_of(x_np, dim)
    mean_o, std_o, _ = OS.pooled_stats(obs, False)
    mean = case["mean"] if case["mean"] is not None else mean_o
    std = case["std"] if case["std"] is not None else std_o
    mt = None if case["mean"] is None else torch.tensor(case["mean"], dtype=sdt)
    st = None if case["std"] is None else torch.tensor(case["std"], dtype=sdt)
    if case["form"] == "module":
        m = _mk_mvn(M, dim, case["eps"], mt, st)
        y = mon.lib("mvn_call", m, x)
    elif case["eps"] is None:
        y = mon.lib("mean_var_norm", F.mean_var_norm, x, dim, mt, st)
    else:
        y = mon.lib("mean_var_norm", F.mean_var_norm, x, dim, mt, st, case["eps"])
    mon.check(tuple(y.shape) == tuple(x.shape) and y.dtype == x.dtype, "normalised-shape",
              observed=[list(y.shape), str(y.dtype)], expected=[list(x.shape), str(x.dtype)])
    own = case["mean"] is None and case["std"] is None
    _check_normalised(mon, [(x_np, _np(y))], dim, mean, std, eps, case["dtype"], 0, own=own)
    if not any(s > 0 for s in std_o):
        mon.trivial()


# --------------------------------------------------------------------------
# execution: command line


def _run_cmd(mon, case, names, d, documented=()):
    import torch
    from pydrobert.torch import command_line

    dt = _tdt(case["dtype"])
    feat = os.path.join(d, "feat")
    os.makedirs(feat)
    linked = 0
    for j, (name, t) in enumerate(zip(names, case["tensors"])):
        path = os.path.join(feat, case["prefix"] + name + case["suffix"])
        if (len(names) + case["dim"]) % 2 == 0 and j % 3 == 1:
            # part of the corpus lives elsewhere and is linked in (what `subset-torch-spect-data-dir --symlink` makes)
            store = os.path.join(d, "store")
            os.makedirs(store, exist_ok=True)
            real = os.path.join(store, "%d.bin" % j)
            torch.save(torch.tensor(t, dtype=dt), real)
            os.symlink(os.path.relpath(real, feat) if j % 2 else real, path)
            linked += 1
        else:
            torch.save(torch.tensor(t, dtype=dt), path)
    if linked:
        mon.cls("cmd_symlinked_files")
    out = os.path.join(d, "out.pt")
    args = [feat, out, "--num-workers", "0"]
    if case["prefix"]:
        args += ["--file-prefix", case["prefix"]]
    if case["suffix"] != ".pt":
        args += ["--file-suffix", case["suffix"]]
    if case["pass_dim"]:
        args += ["--dim=%d" % case["dim"]]
    if case["bessel"]:
        args += ["--bessel"]
    if case["groups"] is not None:
        mp = os.path.join(d, "id2gid")
        with open(mp, "w") as f:
            for name, g in zip(names, case["groups"]):
                f.write("%s %s\n" % (name, g))
        args += ["--id2gid", mp]
    rc = mon.lib("compute_mvn_stats_cmd", command_line.compute_mvn_stats_for_torch_feat_data_dir, args,
                 documented=documented)
    if documented:
        return None
    mon.check(not rc and os.path.exists(out), "cmd-succeeded", returned=rc, args=args[2:])
    res = torch.load(out)
    shutil.rmtree(feat)
    os.remove(out)
    return res


def _exec_cmd(case, mon):
    import torch

    dim, bessel = case["dim"], case["bessel"]
    mon.cls(case["dtype"], "bessel" if bessel else "biased", "dim_negative" if dim < 0 else "dim_nonneg")
    arrs = [np.asarray(t, dtype=np.float64) for t in case["tensors"]]
    groups = case["groups"]
    gids = sorted(set(groups)) if groups is not None else [None]
    need = 2 if bessel else 1
    expected = {}
    for g in gids:
        mem = [a for k, a in enumerate(arrs) if groups is None or groups[k] == g]
        expected[g] = OS.pool(mem, dim)
    undefined = any(o.shape[1] < need for o in expected.values())
    results = []
    d = tempfile.mkdtemp(prefix="vmon-c18-")
    try:
        for names in case["names"]:
            with warnings.catch_warnings():
                warnings.simplefilter("ignore")
                if undefined:
                    # some group pools fewer frames than the estimator needs: store() documents a RuntimeError
                    _run_cmd(mon, case, names, d, documented=(RuntimeError,))
                    mon.ood("estimator-undefined-but-stored")
                    return
                res = _run_cmd(mon, case, names, d)
            if groups is None:
                mon.check(isinstance(res, dict) and set(res) == {"mean", "std"}, "cmd-format",
                          observed=sorted(map(str, res)) if isinstance(res, dict) else repr(type(res)))
                res = {None: res}
            else:
                mon.check(isinstance(res, dict) and set(res) == set(gids), "cmd-format",
                          observed=sorted(map(str, res)) if isinstance(res, dict) else repr(type(res)),
                          expected=gids)
            got = {}
            for g in gids:
                st = res[g]
                mon.check(isinstance(st, dict) and set(st) == {"mean", "std"} and
                          all(isinstance(v, torch.Tensor) for v in st.values()), "cmd-format", group=g)
                obs = expected[g]
                X, n = obs.shape
                mean_o, std_o, msq = OS.pooled_stats(obs, bessel)
                mon.check(tuple(st["mean"].shape) == (X,) and tuple(st["std"].shape) == (X,), "cmd-shape",
                          observed=[list(st["mean"].shape), list(st["std"].shape)], expected=[X], group=g)
                gm, gs = [float(v) for v in st["mean"]], [float(v) for v in st["std"]]
                for i in range(X):
                    mon.close(gm[i], mean_o[i], 1e-12 + 1e-10 * math.sqrt(msq[i]), "cmd-mean", group=g,
                              coefficient=i, n=n)
                    mon.close(gs[i], std_o[i], OS.std_tolerance(std_o[i], msq[i]), "cmd-std", group=g,
                              coefficient=i, n=n, bessel=bessel)
                    if std_o[i] == 0.0 and n > 1:
                        mon.cls("const_coefficient")
                got[g] = (gm, gs, std_o, msq)
            results.append(got)
        a, b = results
        for g in gids:
            for i in range(len(a[g][0])):
                msq_i, s_i = a[g][3][i], a[g][2][i]
                mon.close(b[g][0][i], a[g][0][i], 2e-12 + 2e-10 * math.sqrt(msq_i), "cmd-order-invariance",
                          what="mean", group=g, coefficient=i)
                mon.close(b[g][1][i], a[g][1][i], 2 * OS.std_tolerance(s_i, msq_i), "cmd-order-invariance",
                          what="std", group=g, coefficient=i)
        mon.observe("cmd_orders", "%s|%s" % (case["names"][1], groups))
    finally:
        shutil.rmtree(d, ignore_errors=True)
    if len(arrs) < 2:
        mon.trivial()


# --------------------------------------------------------------------------
# execution: deltas


def _exec_deltas(case, mon):
    import torch
    import pydrobert.torch.functional as F
    import pydrobert.torch.modules as M

    dt = _tdt(case["dtype"])
    x_np = np.asarray(case["x"], dtype=np.float64)
    x = LY.relayout(torch.tensor(case["x"], dtype=dt), case.get("layout") or LY.pick(x_np.size, x_np.ndim, case["order"]))
    D = x.dim()
    dim, td, conc = case["dim"], case["time_dim"], case["concatenate"]
    order, width, mode, value = case["order"], case["width"], case["pad_mode"], case["value"]
    T = x.shape[td]
    pad = order * width
    mon.cls(case["dtype"], "concatenate" if conc else "stack", "dim_negative" if dim < 0 else "dim_nonneg",
            "order_%d" % order, "pad_" + mode)
    DD = D if conc else D + 1
    mon.observe("delta_configs", "%d|%d|%d|%s|%d|%d|%s" % (D, dim % DD, td % D, conc, order, width, mode))
    if dim % DD == td % D:
        mon.cls("dim_is_time_dim")
    documented = ()
    if pad and ((mode == "reflect" and pad >= T) or (mode == "circular" and pad > T)):
        documented = (RuntimeError, NotImplementedError)
    with warnings.catch_warnings():
        warnings.simplefilter("ignore")
        if case["form"] == "module":
            if mode == "constant":
                mod = M.FeatureDeltas(dim, td, conc, order, width, mode, value)
            else:
                mod = M.FeatureDeltas(dim, td, conc, order, width, mode)
            # the module keeps its filters in a float32 buffer: usual nn.Module dtype discipline
            y = mon.lib("FeatureDeltas", LY.travelled(mod.to(dt), x.numel(), order, width), x, documented=documented)
        elif mode == "constant":
            y = mon.lib("feat_deltas", F.feat_deltas, x, dim, td, conc, order, width, mode, value,
                        documented=documented)
        else:
            y = mon.lib("feat_deltas", F.feat_deltas, x, dim, td, conc, order, width, mode, documented=documented)
    if documented:
        mon.ood("padding-accepted-beyond-length")
        return
    want_shape = OD.expected_shape(list(x.shape), dim, conc, order)
    mon.check(list(y.shape) == want_shape and y.dtype == x.dtype, "delta-shape", observed=list(y.shape),
              expected=want_shape, dtype=str(y.dtype))
    want = OD.feat_deltas(x_np, dim, td, conc, order, width, mode, value)
    scale = max(1.0, float(np.abs(x_np).max()), abs(value))
    _close_arr(mon, _np(y), want, 1e-4 * scale, "delta-value", dim=dim, time_dim=td, concatenate=conc,
               order=order, width=width, pad_mode=mode, value=value)
    if order == 0 or T < 2:
        mon.trivial()


# --------------------------------------------------------------------------
# execution: returns


def _exec_returns(case, mon):
    import torch
    import pydrobert.torch.functional as F
    import pydrobert.torch.modules as M

    dt = _tdt(case["dtype"])
    gamma, bf = case["gamma"], case["batch_first"]
    r_tn = case["r"]
    T, N = len(r_tn), len(r_tn[0])
    r = torch.tensor(r_tn, dtype=dt)
    if bf:
        r = r.t().contiguous()
    r = LY.relayout(r, case.get("layout") or LY.pick(T, N, int(bf)))
    mon.cls(case["dtype"], "batch_first" if bf else "time_first")
    mon.observe("gammas", repr(gamma))
    tiny = 1.4e-45 if case["dtype"] == "float32" else 4.9e-324
    if 0 < abs(gamma) < 1 and abs(gamma) ** (T - 1) < tiny:
        mon.cls("gamma_underflow")
    if T > 1000:
        mon.cls("horizon_over_1000")
    if (T + 2 * N) % 3 == 0 and r.dtype.is_floating_point:
        # rewards that are part of an autograd graph (a learnt reward model): the returns are the same numbers
        r = r.clone().requires_grad_(True)
        mon.cls("rewards_require_grad")
    with warnings.catch_warnings():
        warnings.simplefilter("ignore")
        if case["form"] == "module":
            R = mon.lib("TimeDistributedReturn", LY.travelled(M.TimeDistributedReturn(float(gamma), bf), r.numel()), r)
        else:
            R = mon.lib("time_distributed_return", F.time_distributed_return, r, float(gamma), bf)
    mon.check(tuple(R.shape) == tuple(r.shape) and R.dtype == r.dtype, "return-shape", observed=list(R.shape),
              expected=list(r.shape), dtype=str(R.dtype))
    got = _np(R.t() if bf else R)
    want, mag = OR.returns(r_tn, gamma)
    want, mag = np.asarray(want), np.asarray(mag)
    e = EPS[case["dtype"]]
    horizon = (T - np.arange(T)).reshape(T, 1)
    tol = 2 * e * (horizon + 8) * mag + 1e-37
    _close_arr(mon, got, want, tol, "return-value", gamma=gamma, T=T, batch_first=bf)
    # the recursion on the library's own output: R_t = r_t + gamma R_(t+1), R_T = 0
    nxt = np.vstack([got[1:], np.zeros((1, N))])
    _close_arr(mon, got, np.asarray(r_tn, dtype=np.float64) + gamma * nxt, 3 * tol, "return-recursion",
               gamma=gamma, T=T, batch_first=bf)
    later = any(v != 0 for row in r_tn[1:] for v in row)
    if gamma == 0 or T < 2 or not later:
        mon.trivial()


def execute(case, mon):
    kind = case["kind"]
    if kind == "mvn":
        return _exec_mvn(case, mon)
    if kind == "norm":
        return _exec_norm(case, mon)
    if kind == "cmd":
        return _exec_cmd(case, mon)
    if kind == "deltas":
        return _exec_deltas(case, mon)
    return _exec_returns(case, mon)


# ---- mechanism B: the repository's own tests as an additional workload (thorough tier)
PYTEST_FILES = ["tests/test_feats.py", "tests/test_rl.py"]
PYTEST_ARGS = ["-k", "mean_var_norm or feat_deltas or time_distributed_return"]
_MAX_HOOK = 40000


def _dtname(t):
    import torch

    return {torch.float32: "float32", torch.float64: "float64"}.get(t.dtype)


def hook_case(module, args, kwargs, output):
    name = type(module).__name__
    if name not in ("FeatureDeltas", "TimeDistributedReturn", "MeanVarianceNormalization") or not args:
        return None
    import torch

    if torch.jit.is_tracing() or torch.jit.is_scripting():
        return None  # touching traced tensors here would be recorded into the trace
    x = args[0]
    dtype = _dtname(x)
    if dtype is None or x.numel() == 0 or x.numel() > _MAX_HOOK or x.device.type != "cpu":
        return None
    if name == "FeatureDeltas":
        if module.pad_mode != "constant" and module.value != 0:
            return None
        return {
            "class": "repo_test_call", "kind": "deltas", "dtype": dtype, "x": x.tolist(), "dim": int(module.dim),
            "time_dim": int(module.time_dim), "concatenate": bool(module.concatenate), "order": int(module.order),
            "width": int(module.width), "pad_mode": module.pad_mode,
            "value": float(module.value) if module.pad_mode == "constant" else 0.0,
            "form": "functional", "observed_module": name,
        }
    if name == "TimeDistributedReturn":
        if x.dim() != 2:
            return None
        bf = bool(module.batch_first)
        return {
            "class": "repo_test_call", "kind": "returns", "dtype": dtype, "r": (x.t() if bf else x).tolist(),
            "gamma": float(module.gamma), "batch_first": bf, "form": "functional", "observed_module": name,
        }
    mean, std = module.mean, module.std
    return {
        "class": "repo_test_call", "kind": "norm", "dtype": dtype,
        "stat_dtype": "float64", "dim": int(module.dim), "x": x.tolist(),
        "mean": None if mean is None else mean.double().tolist(),
        "std": None if std is None else std.double().tolist(),
        "eps": float(module.eps), "form": "functional", "observed_module": name,
    }


def hook_compare(case, output, mon):
    """The value the test itself received must be what the judged re-execution produced."""
    import torch
    import pydrobert.torch.functional as F

    dt = _tdt(case["dtype"])
    with warnings.catch_warnings():
        warnings.simplefilter("ignore")
        if case["kind"] == "deltas":
            again = F.feat_deltas(torch.tensor(case["x"], dtype=dt), case["dim"], case["time_dim"],
                                  case["concatenate"], case["order"], case["width"], case["pad_mode"],
                                  case["value"])
        elif case["kind"] == "returns":
            r = torch.tensor(case["r"], dtype=dt)
            again = F.time_distributed_return(r.t().contiguous() if case["batch_first"] else r, case["gamma"],
                                              case["batch_first"])
        else:
            return
    same = tuple(again.shape) == tuple(output.shape) and bool(
        (torch.isclose(again, output, rtol=1e-5, atol=1e-6) | (again.isnan() & output.isnan())).all())
    mon.check(same, "observed-output", observed=output, expected=again)
