"""Class-directed case generation and small-scope enumeration for C09.

Everything is concrete and JSON-able: tensors are nested lists (None = NaN,
only ever stored *beyond* a row's length), shapes are explicit so that
zero-size dimensions survive the round trip.
"""
import itertools
import random

from ..oracles import c09_pad as O

CLASSES = [
    # pad_variable
    "pv_constant", "pv_reflect", "pv_replicate",
    "pv_big_constant", "pv_big_replicate", "pv_reflect_max", "pv_reflect_illegal",
    "pv_all_empty", "pv_len0_nonconst",
    # chunk_by_slices
    "cb_constant", "cb_reflect", "cb_replicate",
    "cb_left_only", "cb_right_only", "cb_empty_inverted", "cb_no_lens",
    "cb_big_replicate", "cb_all_empty", "cb_reflect_illegal",
    # pad_masked_sequence
    "pm_seq_first", "pm_batch_first",
    # RandomShift / random_shift
    "rs_train", "rs_extreme", "rs_eval", "rs_real_rng",
]
# a few classes get a second slot in the round-robin (the ones D3 lives in and the
# reflect offset-correction branch)
ROUND = CLASSES + ["pv_big_replicate", "cb_big_replicate", "cb_right_only", "rs_extreme", "rs_train",
                   "pm_seq_first", "pm_batch_first"]

RESTS = [[], [], [1], [3], [2, 2]]
ONE_MINUS = 1.0 - 2.0 ** -24  # largest float32 below 1: the hostile upper RNG outcome
PROPS = [0.0, 0.25, 0.5, 0.75, 1.0]  # dyadic: prop * len is exact in float32 and in the judge
PROPS_BIG = [1.5, 2.0, 3.0]


def make_x(rng, N, T, rest, lens, dtype, garbage="mixed", base=None):
    """(N, T, *rest) nested list: distinct numbers inside each row's length,
    hostile filler (NaN or far-away sentinels) beyond it."""
    k = itertools.count(1)
    base = rng.choice([0, 100, -40]) if base is None else base
    half = dtype != "int64" and rng.random() < 0.3

    def leaf(valid):
        j = next(k)
        if valid:
            v = base + j
            return (v + 0.5 if half else float(v)) if dtype != "int64" else int(v)
        g = garbage
        if g == "mixed":
            g = rng.choice(["nan", "sentinel"])
        if g == "nan" and dtype != "int64":
            return None
        return (-7777 - j) if dtype == "int64" else float(-7777 - j)

    def item(valid, dims):
        if not dims:
            return leaf(valid)
        return [item(valid, dims[1:]) for _ in range(dims[0])]

    return [[item(lens is None or t < lens[n], rest) for t in range(T)] for n in range(N)]


def _base(rng, tier, fn, T=None, N=None, dtype=None):
    Tmax = 9
    if T is None and rng.random() < 0.07:
        T = rng.choice([17, 24, 40, 130])  # far longer than the rest of the workload (sort / block-wise code paths)
    T = rng.randint(1, Tmax) if T is None else T
    N = rng.randint(1, 5) if N is None else N
    if dtype is None:
        dtype = rng.choice(["float32", "float32", "float32", "int64", "float64"])
    rest = list(rng.choice(RESTS))
    if dtype == "int64":
        # sentinels single precision cannot hold included
        value = rng.choice([0.0, -1.0, 3.0, 99.0, float(2 ** 24 + 1), float(2 ** 31 - 1), float(-(2 ** 40) - 1)])
    elif dtype == "float64":
        value = rng.choice([0.0, -1.5, 7.25, 1024.0, 0.1, 1e-3, -1e300, 1.0 + 2.0 ** -40])
    else:
        value = rng.choice([0.0, -1.5, 7.25, 1024.0])
    return {
        "fn": fn, "form": rng.choice(["functional", "module"]), "dtype": dtype,
        "N": N, "T": T, "rest": rest, "value": value,
        "noncontig": rng.random() < 0.2,
    }


def _finish(rng, case, lens, garbage="mixed"):
    case["lens"] = lens
    case["x"] = make_x(rng, case["N"], case["T"], case["rest"], lens, case["dtype"], garbage)
    case["shape"] = [case["N"], case["T"]] + case["rest"]
    return case


# ---------------------------------------------------------------- pad_variable


def gen_pv(rng, tier, cls):
    case = _base(rng, tier, "pad_variable")
    N, T = case["N"], case["T"]
    if cls == "pv_constant":
        mode = "constant"
        lens = [rng.randint(0, T) for _ in range(N)]
        pad = [[rng.randint(0, T) for _ in range(N)] for _ in range(2)]
    elif cls == "pv_reflect":
        mode = "reflect"
        lens = [rng.randint(1, T) for _ in range(N)]
        pad = [[rng.randint(0, lens[n] - 1) for n in range(N)] for _ in range(2)]
    elif cls == "pv_replicate":
        mode = "replicate"
        lens = [rng.randint(1, T) for _ in range(N)]
        pad = [[rng.randint(0, T) for _ in range(N)] for _ in range(2)]
    elif cls in ("pv_big_constant", "pv_big_replicate"):
        mode = "constant" if cls == "pv_big_constant" else "replicate"
        lo = 0 if mode == "constant" else 1
        lens = [rng.randint(lo, T) for _ in range(N)]
        pad = [[rng.choice([0, rng.randint(0, T), rng.randint(T + 1, 3 * T)]) for _ in range(N)] for _ in range(2)]
        n, side = rng.randrange(N), rng.randrange(2)
        pad[side][n] = rng.randint(T + 1, 3 * T)  # at least one pad beyond the time dimension
    elif cls == "pv_reflect_max":
        mode = "reflect"
        lens = [rng.randint(1, T) for _ in range(N)]
        pad = [[rng.choice([lens[n] - 1, lens[n] - 1, rng.randint(0, lens[n] - 1)]) for n in range(N)] for _ in range(2)]
    elif cls == "pv_reflect_illegal":
        mode = "reflect"
        lens = [rng.randint(1, T) for _ in range(N)]
        pad = [[rng.randint(0, lens[n] - 1) for n in range(N)] for _ in range(2)]
        n, side = rng.randrange(N), rng.randrange(2)
        pad[side][n] = lens[n] + rng.choice([0, 0, 1, T])
    elif cls == "pv_all_empty":
        mode = "constant"
        if rng.random() < 0.3:
            case["T"] = T = 0
        lens = [0] * N
        pad = [[rng.randint(0, 2 * max(T, 2)) for _ in range(N)] for _ in range(2)]
    elif cls == "pv_len0_nonconst":
        mode = rng.choice(["reflect", "replicate"])
        lens = [rng.randint(1, T) for _ in range(N)]
        lens[rng.randrange(N)] = 0
        pad = [[rng.randint(0, max(lens[n] - 1, 0)) for n in range(N)] for _ in range(2)]
    else:  # pragma: no cover
        raise ValueError(cls)
    case.update(mode=mode, pad=pad)
    return _finish(rng, case, lens)


# ------------------------------------------------------------- chunk_by_slices


def _legal_reflect_slice(rng, L):
    """A non-empty or empty slice whose overhang is < L on both sides."""
    start = rng.randint(-(L - 1), 2 * L - 2)
    end = rng.randint(start - 1, 2 * L - 1)
    return [start, end]


def gen_cb(rng, tier, cls):
    case = _base(rng, tier, "chunk_by_slices")
    N, T = case["N"], case["T"]
    lens = [rng.randint(1, T) for _ in range(N)]
    if cls in ("cb_constant", "cb_replicate"):
        mode = cls[3:]
        if mode == "constant":
            lens = [rng.randint(0, T) for _ in range(N)]
        slices = []
        for n in range(N):
            s = rng.randint(-T - 2, T + 2)
            slices.append([s, s + rng.randint(-2, T + 3)])
    elif cls == "cb_reflect":
        mode = "reflect"
        slices = [_legal_reflect_slice(rng, lens[n]) for n in range(N)]
    elif cls == "cb_left_only":
        mode = rng.choice(O.MODES)
        if mode == "reflect":
            lens = [rng.randint(2, max(T, 2)) for _ in range(N)]
            case["T"] = T = max(T, 2)
        slices = []
        for n in range(N):
            far = lens[n] - 1 if mode == "reflect" else 2 * T
            s = rng.randint(-far, -1)
            slices.append([s, rng.randint(s + 1, 0)])  # wholly inside the left padding
    elif cls == "cb_right_only":
        mode = rng.choice(["reflect", "reflect", "constant", "replicate"])
        if mode == "reflect":
            case["T"] = T = max(T, 3)
            lens = [rng.randint(2, T) for _ in range(N)]
        slices = []
        for n in range(N):
            L = lens[n]
            far = 2 * L - 1 if mode == "reflect" else L + 2 * T
            if rng.random() < 0.25 and N > 1 and n > 0:
                slices.append([rng.randint(0, L - 1), rng.randint(1, far)])  # an ordinary neighbour row
                continue
            s = rng.randint(L, far - 1)
            slices.append([s, rng.randint(s + 1, far)])  # wholly inside the right padding
    elif cls == "cb_empty_inverted":
        mode = rng.choice(O.MODES)
        slices = []
        for n in range(N):
            L = lens[n]
            kind = rng.choice(["empty", "inverted", "far_empty", "normal"])
            if kind == "empty":
                s = rng.randint(-1, L + 1)
                slices.append([s, s])
            elif kind == "inverted":
                s = rng.randint(-T, 2 * T)
                slices.append([s, s - rng.randint(1, 2 * T)])
            elif kind == "far_empty":
                s = rng.choice([-3 * T, 3 * T, 5 * T])
                slices.append([s, s - rng.randint(0, 1)])
            else:
                slices.append(_legal_reflect_slice(rng, L))
    elif cls == "cb_no_lens":
        mode = rng.choice(O.MODES)
        lens = None
        slices = []
        for n in range(N):
            if mode == "reflect":
                slices.append(_legal_reflect_slice(rng, T))
            else:
                s = rng.randint(-T - 2, T + 2)
                slices.append([s, s + rng.randint(-1, T + 3)])
    elif cls == "cb_big_replicate":
        mode = "replicate"
        slices = []
        for n in range(N):
            s = rng.randint(-T - 2, T + 2)
            slices.append([s, s + rng.randint(-1, T + 3)])
        n = rng.randrange(N)
        if rng.random() < 0.5:
            s = -rng.randint(T + 1, 3 * T)
            slices[n] = [s, rng.randint(s + 1, lens[n] + 1)]
        else:
            e = lens[n] + rng.randint(T + 1, 3 * T)
            slices[n] = [rng.randint(-1, e - 1), e]
    elif cls == "cb_all_empty":
        mode = "constant"
        if rng.random() < 0.35:
            case["T"] = T = 0
        lens = [0] * N if rng.random() < 0.7 or T == 0 else None
        if lens is None:
            case["T"] = T = 0
        slices = []
        for n in range(N):
            s = rng.randint(-3, 3)
            slices.append([s, s + rng.randint(-1, 4)])
    elif cls == "cb_reflect_illegal":
        mode = "reflect"
        slices = [_legal_reflect_slice(rng, lens[n]) for n in range(N)]
        n = rng.randrange(N)
        L = lens[n]
        if rng.random() < 0.5:
            slices[n] = [-L - rng.choice([0, 0, 1]), rng.randint(-L + 1, L)]
        else:
            slices[n] = [rng.randint(0, L), 2 * L + rng.choice([0, 0, 1])]
    else:  # pragma: no cover
        raise ValueError(cls)
    case.update(mode=mode, slices=slices)
    return _finish(rng, case, lens)


# --------------------------------------------------------- pad_masked_sequence


def gen_pm(rng, tier, cls):
    case = _base(rng, tier, "pad_masked_sequence")
    N, T = case["N"], case["T"]
    if rng.random() < 0.1:
        case["T"] = T = rng.choice([0, 1])
    bf = cls == "pm_batch_first"
    p = rng.choice([0.0, 0.5, 0.9, 1.0])
    mask = [[rng.random() < p for _ in range(T)] for _ in range(N)]
    case.update(batch_first=bf, mask=mask, garbage_free=True)
    # no filler concept here: the whole of x is data (batch-first layout is stored; see to_tensors)
    case["x"] = make_x(rng, N, T, case["rest"], None, case["dtype"])
    if case["dtype"] != "int64" and rng.random() < 0.4:
        # what the mask drops is unusable in the first place (mask = isfinite(x)): NaN at every dropped position
        def nan_like(item):
            return [nan_like(i) for i in item] if isinstance(item, list) else None

        for n in range(N):
            for t in range(T):
                if not mask[n][t]:
                    case["x"][n][t] = nan_like(case["x"][n][t])
        case["dropped_are_nan"] = True
    case["lens"] = None
    case["shape"] = [N, T] + case["rest"]
    return case


# ---------------------------------------------------------------- random_shift


def gen_rs(rng, tier, cls):
    case = _base(rng, tier, "random_shift")
    N, T = case["N"], case["T"]
    mode = rng.choice(O.MODES)
    lo = 0 if mode == "constant" else 1
    lens = [rng.randint(lo, T) for _ in range(N)]
    props = PROPS if mode == "reflect" else PROPS + PROPS_BIG
    prop = [rng.choice(props), rng.choice(props)]
    training, rand, seed = True, None, None
    if cls == "rs_train":
        rand = [[rng.randrange(0, 2 ** 24) / 2.0 ** 24 for _ in range(N)] for _ in range(2)]
    elif cls == "rs_extreme":
        rand = [[rng.choice([0.0, ONE_MINUS, ONE_MINUS, 0.5]) for _ in range(N)] for _ in range(2)]
        ext = [0.0, 1.0] if mode == "reflect" else [0.0, 1.0, 2.0]
        prop = [rng.choice(ext + [0.75]), rng.choice(ext + [0.25])]
    elif cls == "rs_eval":
        training = False
        lens = [rng.randint(0, T) for _ in range(N)]
    elif cls == "rs_real_rng":
        seed = rng.randrange(2 ** 31)
    if rng.random() < 0.25:
        prop = [prop[0], prop[0]]
        case["prop_single"] = True  # module built from one float
    case.update(mode=mode, prop=prop, training=training, rand=rand, seed=seed)
    return _finish(rng, case, lens)


def generate(rng, tier, i):
    cls = ROUND[i % len(ROUND)]
    if cls.startswith("pv_"):
        case = gen_pv(rng, tier, cls)
    elif cls.startswith("cb_"):
        case = gen_cb(rng, tier, cls)
    elif cls.startswith("pm_"):
        case = gen_pm(rng, tier, cls)
    else:
        case = gen_rs(rng, tier, cls)
    case["class"] = cls
    return case


# ------------------------------------------------------------------ enumeration


def _enum_row_x(T, L, row):
    # distinct values; NaN beyond the row's length
    return [[float(100 * row + 10 * t + 1)] if t < L else [None] for t in range(T)]


def _pv_tuples(T, mode):
    return [(L, a, b) for L in range(T + 1) for a in range(3 * T + 1) for b in range(3 * T + 1)]


def _cb_tuples(T, mode):
    R = range(-3 * T, 4 * T + 1)
    return [(L, s, e) for L in range(T + 1) for s in R for e in R]


def enumerate_cases(tier):
    """Every (len, left, right, mode) and every (len, start, end, mode) for T <= Tmax:
    once as a batch of one, and (legal tuples only) once more inside a batch with two
    other legal tuples so that the cross-row buffer arithmetic is driven as well."""
    Tmax = 4 if tier == "thorough" else 2
    for T in range(1, Tmax + 1):
        for mode in O.MODES:
            for fn, tuples, is_legal in (
                ("pad_variable", _pv_tuples(T, mode), lambda t: O.legal(t[0], t[1], t[2], mode)),
                ("chunk_by_slices", _cb_tuples(T, mode), lambda t: O.chunk_legal(t[0], t[1], t[2], mode)),
            ):
                legal = [t for t in tuples if is_legal(t)]
                for j, t in enumerate(tuples):
                    yield _enum_case(fn, T, mode, [t], "exhaustive_solo")
                    if is_legal(t) and len(legal) > 1:
                        r = random.Random("%s/%d/%s/%d" % (fn, T, mode, j))
                        rows = [r.choice(legal), r.choice(legal)]
                        rows.insert(j % 3, t)
                        yield _enum_case(fn, T, mode, rows, "exhaustive_batch")


def _enum_case(fn, T, mode, rows, cls):
    N = len(rows)
    case = {
        "class": cls, "fn": fn, "form": "functional", "dtype": "float32", "N": N, "T": T,
        "rest": [1], "value": -1.5, "noncontig": False, "mode": mode,
        "lens": [t[0] for t in rows], "shape": [N, T, 1],
        "x": [_enum_row_x(T, rows[n][0], n) for n in range(N)],
    }
    if fn == "pad_variable":
        case["pad"] = [[t[1] for t in rows], [t[2] for t in rows]]
    else:
        case["slices"] = [[t[1], t[2]] for t in rows]
    return case
